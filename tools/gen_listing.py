"""C18: program generator and the listing oracle.

A program is {"cpu": <cpu_list name>, "items": [item...]}; items are the directive tuples of tools/gen_data.py
(("org", op), ("db", spelling, items), ("dc16", spelling, ops), ("dc32"..), ("dc64"..), ("resb", op), ("resw", op),
("alignbits", spelling, op), ("fill", v, n), ("be",), ("le",), ("lab", name)) plus
  ("ins", text)               one instruction statement (text from corpus/statements/<cpu>.txt)
  ("rep", n, [items])         .repeat n ... .endr
  ("mac", name, [items])      a macro whose body is the items (defined in front of the program, invoked here)
  ("inc", file, [items])      .include "file" whose content is the items
Every statement is rendered on a line of its own.
"""
import os, re
import nvlib, gen_data as G, gen_src as S, lst_parse as LP, fileio_spec as F

N = lambda v: ("n", v)


def cpu_table():
    return {c["name"]: c for c in G.load_cpus(nvlib.VERIF)}


# ---------------------------------------------------------------- rendering

def render_item(it, out, style, macros, includes, indent="  "):
    k = it[0]
    if k == "ins": out.append(indent + it[1])
    elif k == "org": out.append(".org " + G.op_text(it[1], style))
    elif k == "db":
        items = []
        for x in it[2]:
            items.append('"' + bytes(x[1]).decode("latin-1") + '"' if x[0] == "s" else G.op_text(x, style))
        out.append(indent + "." + it[1] + " " + ", ".join(items))
    elif k in ("dc16", "dc32", "dc64"):
        out.append(indent + "." + it[1] + " " + ", ".join(G.op_text(o, style) for o in it[2]))
    elif k == "resb": out.append(indent + ".resb " + G.op_text(it[1], style))
    elif k == "resw": out.append(indent + ".resw " + G.op_text(it[1], style))
    elif k == "alignbits": out.append(indent + "." + it[1] + " " + G.op_text(it[2], style))
    elif k == "alignbytes": out.append(indent + ".align_bytes " + G.op_text(it[1], style))
    elif k == "fill": out.append(indent + ".data_fill " + G.op_text(it[1], style) + ", " + G.op_text(it[2], style))
    elif k == "be": out.append(".big_endian")
    elif k == "le": out.append(".little_endian")
    elif k == "lab": out.append(it[1] + ":")
    elif k == "rep":
        out.append(".repeat %d" % it[1])
        for x in it[2]:
            render_item(x, out, style, macros, includes, indent)
        out.append(".endr")
    elif k == "mac":
        body = []
        for x in it[2]:
            render_item(x, body, style, macros, includes, indent)
        macros.append([".macro " + it[1]] + body + [".endm"])
        out.append(indent + it[1])
    elif k == "inc":
        body = []
        for x in it[2]:
            render_item(x, body, style, macros, includes, indent)
        includes[it[1]] = "\n".join(body) + "\n"
        out.append('.include "%s"' % it[1])
    else:
        raise ValueError(k)


def render(prog, style=0):
    """-> (source text, {include file: content}, [(item path, source line number)] for instructions)"""
    macros, includes, body = [], {}, []
    for it in prog["items"]:
        render_item(it, body, style, macros, includes)
    lines = ["." + prog["cpu"]]
    for m in macros:
        lines += m
    lines += body
    return "\n".join(lines) + ("\n" if prog.get("final_newline", True) else ""), includes


def flatten(items):
    """the statement sequence the assembler sees: macros and includes are transparent"""
    out = []
    for it in items:
        if it[0] in ("mac", "inc"):
            out += flatten(it[2])
        elif it[0] == "rep":
            out.append(("rep", it[1], flatten(it[2])))
        else:
            out.append(it)
    return out


# ---------------------------------------------------------------- generator

DATA_BYTES = [0, 1, 0x1f, 0x20, 0x41, 0x7e, 0x7f, 0x80, 0xff, 0x2e, 0x3a]


class Gen:
    def __init__(self, rng, cpus=None, stmts=None):
        self.rng = rng
        self.table = cpu_table()
        self.cpus = cpus or [c for c in S.cpus() if c in self.table and c in LP.FORMATS]
        self.stmts = stmts or {}
        self.nlab = 0

    def statements(self, cpu):
        if cpu not in self.stmts:
            self.stmts[cpu] = S.statements(cpu)
        return self.stmts[cpu]

    def ins(self, cpu):
        return ("ins", self.rng.choice(self.statements(cpu)))

    def lab(self):
        self.nlab += 1
        return ("lab", "l%d" % self.nlab)

    def data(self, odd=None):
        r = self.rng
        k = r.randrange(8)
        if k <= 2:
            n = r.choice([1, 1, 2, 3, 3, 5, 7, 15, 16, 17, 31, 33])
            if odd is True and n % 2 == 0: n += 1
            if odd is False and n % 2 == 1: n += 1
            return ("db", r.choice(["db", "dc8"]), [N(r.choice(DATA_BYTES) if r.random() < 0.5 else r.randrange(256)) for _ in range(n)])
        if k == 3 and odd is None:
            s = [r.choice(b"abcXYZ 09~!z{}|") for _ in range(r.choice([1, 2, 5, 16, 17]))]
            return ("db", r.choice(["ascii", "asciiz", "db"]), [("s", s)])
        if k == 4 and odd is not True:
            return ("dc16", r.choice(["dw", "dc16"]), [N(r.randrange(65536)) for _ in range(r.choice([1, 2, 3, 9]))])
        if k == 5 and odd is not True:
            return ("dc32", r.choice(["dc32", "dl", "dd"]), [N(r.randrange(1 << 32)) for _ in range(r.choice([1, 2, 5]))])
        if k == 6 and odd is not True:
            return ("dc64", r.choice(["dc64", "dq"]), [N(r.randrange(1 << 64))])
        n = r.choice([1, 3, 4, 20])
        if odd is True and n % 2 == 0: n += 1
        if odd is False and n % 2 == 1: n += 1
        return ("fill", N(r.randrange(256)), N(n))

    def body(self, cpu, n, p_ins=0.55, labels=0.25, nested=True):
        r = self.rng
        out = []
        for _ in range(n):
            if r.random() < labels:
                out.append(self.lab())
            x = r.random()
            if x < p_ins:
                out.append(self.ins(cpu))
            elif x < 0.9:
                out.append(self.data())
            elif x < 0.95:
                out.append(("resb", N(r.choice([1, 2, 3, 4, 7, 16]))))
            else:
                out.append(("resw", N(r.choice([1, 2, 5]))))
        return out

    def origin(self, cpu, kind=None):
        r = self.rng
        bpa = self.table[cpu]["bpa"]
        kind = kind or r.choice(["zero", "low", "mid", "page", "page", "high"])
        if kind == "zero": return 0
        if kind == "low": return r.choice([0x10, 0x100, 0x200])
        if kind == "mid": return r.choice([0x1000, 0x2000, 0x8000]) // bpa
        if kind == "page": return (0x10000 * r.choice([1, 1, 2]) - r.choice([1, 2, 3, 4, 6, 8, 13, 16, 17])) // bpa
        return r.choice([0x12340, 0xfffff0, 0x1000000 - 6]) // bpa

    def exact_data(self, n):
        """[items]: a data run of exactly n bytes"""
        r = self.rng
        k = r.random()
        if k < 0.15 and n % 2 == 0:
            return [("dc16", r.choice(["dw", "dc16"]), [N(r.randrange(65536)) for _ in range(n // 2)])]
        if k < 0.3:
            return [("db", r.choice(["ascii", "db"]), [("s", [r.choice(b"abcXYZ 09~!z{}|") for _ in range(n)])])]
        if k < 0.45 and n > 2:
            m = r.randrange(1, n)
            return [("db", "db", [N(r.randrange(256)) for _ in range(m)]), ("db", "db", [N(r.randrange(256)) for _ in range(n - m)])]
        return [("db", r.choice(["db", "dc8"]), [N(r.choice(DATA_BYTES) if r.random() < 0.3 else r.randrange(256)) for _ in range(n)])]

    def side(self, cpu, kind, n):
        """one segment body: data = a run of exactly n bytes; code = instructions"""
        r = self.rng
        code = [self.ins(cpu) for _ in range(r.choice([1, 1, 2, 3]))]
        if kind == "data": return self.exact_data(n)
        if kind == "code": return code
        if kind == "code+data": return code + self.exact_data(n)
        return self.exact_data(n) + code                                  # data+code

    def page_program(self, cpu=None):
        """64 KiB page geometry of the image (Memory allocates pages on demand; the dump / the writers walk low..high):
        segment 1 ends `back` bytes in front of the end of page P-1, `gap` pages are never touched, segment 2 starts
        `fwd` bytes into its page.  The check module moves the first .org once the size of segment 1 is known
        (prog["fit_end"] = byte address behind segment 1, prog["seg1"] = number of items of segment 1)."""
        r = self.rng
        cpu = cpu or r.choice(self.cpus)
        bpa = self.table[cpu]["bpa"]
        unit = lambda v: v // bpa * bpa
        page = r.choice([1, 1, 1, 2, 3, 0x10, 0x100])
        lens = list(range(1, 18)) + [31, 32, 33]
        sides = ["data"] * 5 + ["code", "code+data", "data+code"]
        n1, n2 = unit(r.choice(lens) + bpa - 1), unit(r.choice(lens) + bpa - 1)
        back = unit(r.choice([0] * 7 + [1, 2, 4, 15]))
        fwd = unit(r.choice([0] * 7 + [1, 2, 4, 16]))
        gap = r.choice([0, 1, 1, 1, 2, 2, 3])
        s1, s2 = r.choice(sides), r.choice(sides)
        seg1 = [("org", N((page * 0x10000 - back - n1 - 16) // bpa))] + self.side(cpu, s1, n1)
        items = list(seg1)
        at = (page + gap) * 0x10000 + fwd
        items.append(("org", N(at // bpa)))
        if r.random() < 0.3:
            items.append(self.lab())
        items += self.side(cpu, s2, n2)
        if r.random() < 0.3:
            # a third segment: again on the first byte of a later page, or in the page of segment 2
            g3 = r.choice([0, 1, 2])
            items.append(("org", N(((page + gap + 1 + g3) * 0x10000 + unit(r.choice([0, 0, 0, 3, 0x20]))) // bpa)))
            items += self.side(cpu, r.choice(sides), unit(r.choice(lens) + bpa - 1))
        return {"cpu": cpu, "items": items, "shape": "pages", "seg1": len(seg1), "fit_end": page * 0x10000 - back,
                "geometry": "%s|%s back=%d gap=%d fwd=%d" % (s1, s2, back, gap, fwd)}

    def program(self, cpu=None, shape=None):
        r = self.rng
        cpu = cpu or r.choice(self.cpus)
        shape = shape or r.choice(SHAPES)
        if shape == "pages":
            return self.page_program(cpu)
        items = [("org", N(self.origin(cpu)))]
        if shape == "plain":
            items += self.body(cpu, r.randrange(2, 12))
        elif shape == "odd-data":
            items += [self.ins(cpu), self.data(odd=True), self.ins(cpu), self.ins(cpu), self.data(odd=True), self.lab(), self.ins(cpu)]
        elif shape == "repeat":
            kind = r.choice(["code", "data", "mixed", "gap", "odd"])
            if kind == "code": b = [self.ins(cpu) for _ in range(r.choice([1, 2, 3]))]
            elif kind == "data": b = [self.data() for _ in range(r.choice([1, 2]))]
            elif kind == "mixed": b = [self.ins(cpu), self.data(odd=False), self.ins(cpu)]
            elif kind == "gap": b = [self.ins(cpu), ("resb", N(r.choice([2, 4]))), self.ins(cpu)]
            else: b = [self.ins(cpu), self.data(odd=True)]
            items += self.body(cpu, r.randrange(0, 3)) + [("rep", r.choice([1, 2, 3, 5]), b)] + self.body(cpu, r.randrange(0, 3))
        elif shape == "gaps":
            items += [self.ins(cpu), ("resb", N(r.choice([1, 2, 3, 5, 16, 40]))), self.data(), ("resw", N(r.choice([1, 3]))),
                      self.ins(cpu), ("alignbits", r.choice(["align", "align_bits"]), N(r.choice([16, 32, 64, 128]))), self.ins(cpu), self.data()]
        elif shape == "segments":
            base = 0
            items = []
            for _ in range(r.randrange(2, 5)):
                base += r.choice([0x10, 0x100, 0x1000, 0x10000, 0x23456]) // self.table[cpu]["bpa"] + 0x40
                items.append(("org", N(base)))
                items += self.body(cpu, r.randrange(1, 4))
        elif shape == "macro":
            items += self.body(cpu, r.randrange(0, 3))
            items.append(("mac", "mm%d" % r.randrange(1000), [self.ins(cpu), self.data(), self.ins(cpu)]))
            items += self.body(cpu, r.randrange(0, 3))
        elif shape == "include":
            items += self.body(cpu, r.randrange(0, 3))
            items.append(("inc", "inc%d.inc" % r.randrange(1000), [self.lab(), self.ins(cpu), self.data(), self.ins(cpu)]))
            items += self.body(cpu, r.randrange(0, 3))
        elif shape == "data-only":
            for _ in range(r.randrange(1, 8)):
                if r.random() < 0.4:
                    items.append(self.lab())
                items.append(self.data())
            if r.random() < 0.3:
                items.insert(1, ("be",) if r.random() < 0.5 else ("le",))
        elif shape == "data-units":
            # data runs that start / end inside an address unit, long runs, runs broken by reservations
            bpa = self.table[cpu]["bpa"]
            items += [self.data(odd=True), ("resb", N(r.choice([1, 2, 3]))), self.lab(), self.data(), ("resb", N(1)), self.lab(), self.data(odd=True),
                      ("db", "db", [N(r.randrange(256)) for _ in range(r.choice([15, 16, 17, 32, 33, 47]))])]
        elif shape == "code-only":
            items += [self.ins(cpu) for _ in range(r.randrange(1, 10))]
        elif shape == "empty":
            items = [] if r.random() < 0.5 else [("org", N(self.origin(cpu)))]
        elif shape == "labels":
            items += [self.lab()] + self.body(cpu, r.randrange(2, 8), labels=0.9) + [self.lab()]
        elif shape == "overwrite":
            # a second .org over bytes that were already assembled (and listed)
            o = self.origin(cpu, r.choice(["low", "mid"]))
            items = [("org", N(o)), self.ins(cpu), self.data(), self.ins(cpu), ("org", N(o)), self.data(), self.ins(cpu)]
        elif shape == "top":
            # the program ends exactly at (or a few bytes below) the top of the 32-bit address space
            bpa = self.table[cpu]["bpa"]
            tail = [self.ins(cpu), self.data(odd=False)] if r.random() < 0.5 else [self.data(odd=False), self.ins(cpu)]
            items = [("org", N(0x1000))] + tail            # moved to the top by the check module once the size is known
            prog = {"cpu": cpu, "items": items, "shape": shape, "fit_top": r.choice([0, 0, 1, 2, 4])}
            return prog
        else:
            raise ValueError(shape)
        return {"cpu": cpu, "items": items, "shape": shape}


SHAPES = ["plain", "plain", "odd-data", "repeat", "repeat", "gaps", "segments", "macro", "include", "data-only", "data-units",
          "code-only", "empty", "labels", "overwrite", "pages"]


def pages_fixed():
    """page geometry, seed independent: a data run of every length 1..17 that ends on the last byte of a page, 1 or 2
    untouched pages, a data run on the first byte of a later page (bytes_per_address 1 and 2, both byte orders), and the
    neighbouring shapes (no gap, not on the boundary, code on either side)"""
    out = []
    db = lambda n, first=1: ("db", "db", [N((first + i) & 0xff) for i in range(n)])
    out.append({"cpu": "msp430", "shape": "pages", "geometry": "seeded", "items": [("org", N(0xfff5)), db(11), ("org", N(0x30000)), db(3, 0xa1)]})
    for cpu, bpa in (("msp430", 1), ("avr8", 2), ("68000", 1)):
        for n in range(bpa, 18 + bpa, bpa):
            for gap in ((1, 2) if cpu != "68000" else (1,)):
                if cpu == "68000" and n not in (1, 11, 15, 16, 17):
                    continue
                out.append({"cpu": cpu, "shape": "pages", "geometry": "data|data back=0 gap=%d fwd=0" % gap,
                            "items": [("org", N((0x10000 - n) // bpa)), db(n), ("org", N((1 + gap) * 0x10000 // bpa)), ("lab", "second"), db(3, 0xa1)]})
    for cpu, code in (("msp430", "mov.w #0x1234, r5"), ("6502", "lda #1"), ("riscv", "addi a0, a0, 1")):
        for n in (5, 11):
            base = [("org", N(0x20000 - n)), db(n)]
            out.append({"cpu": cpu, "shape": "pages", "geometry": "data|data back=0 gap=0 fwd=0", "items": base + [("org", N(0x20000)), db(3, 0xa1)]})
            out.append({"cpu": cpu, "shape": "pages", "geometry": "data|data back=0 gap=1 fwd=4", "items": base + [("org", N(0x30004)), db(3, 0xa1)]})
            out.append({"cpu": cpu, "shape": "pages", "geometry": "data|code back=0 gap=1 fwd=0", "items": base + [("org", N(0x30000)), ("ins", code), db(2, 0xb1)]})
            out.append({"cpu": cpu, "shape": "pages", "geometry": "data|data back=4 gap=2 fwd=0",
                        "items": [("org", N(0x20000 - n - 4)), db(n), ("org", N(0x40000)), db(3, 0xa1)]})
            out.append({"cpu": cpu, "shape": "pages", "geometry": "data|data|data back=0 gap=1 fwd=0",
                        "items": base + [("org", N(0x30000)), db(0x10000 - 7, 0x11), ("org", N(0x50000)), db(2, 0xc1)] if n == 5 else
                        base + [("org", N(0x30000)), db(7, 0x11), ("org", N(0x3fffd)), db(3, 0x21), ("org", N(0x50000)), db(2, 0xc1)]})
    return out


def has_gap(items):
    return any(it[0] in ("resb", "resw", "alignbits", "alignbytes", "org") or (it[0] in ("mac", "inc", "rep") and has_gap(it[2]))
               for it in items)


def rep_gap_flags(items, out=None):
    """for every repeat block in instrument() order: does its body contain a reservation / alignment / .org"""
    out = out if out is not None else []
    for it in items:
        if it[0] == "rep":
            out.append(has_gap(it[2]))
            rep_gap_flags(it[2], out)
        elif it[0] in ("mac", "inc"):
            rep_gap_flags(it[2], out)
    return out


# ---------------------------------------------------------------- statement extents (instrumented copy)

def instrument(items, ctr=None):
    """copy of the items with labels around every instruction, include body and repeat block:
    zs<k>/ze<k> (instruction k), zib<k>/zie<k> (include), zrb<k>/zrm<k>/zre<k> (repeat: start, end of body, end)"""
    ctr = ctr if ctr is not None else [0]
    out = []
    for it in items:
        k = it[0]
        if k == "ins":
            n = ctr[0]; ctr[0] += 1
            out += [("lab", "zs%d" % n), it, ("lab", "ze%d" % n)]
        elif k == "inc":
            n = ctr[0]; ctr[0] += 1
            out.append(("inc", it[1], [("lab", "zib%d" % n)] + instrument(it[2], ctr) + [("lab", "zie%d" % n)]))
        elif k == "mac":
            out.append(("mac", it[1], instrument(it[2], ctr)))
        elif k == "rep":
            n = ctr[0]; ctr[0] += 1
            out += [("lab", "zrb%d" % n), ("rep", it[1], instrument(it[2], ctr) + [("lab", "zrm%d" % n)]), ("lab", "zre%d" % n)]
        else:
            out.append(it)
    return out


def extents(prog, pr2):
    """from the run of the instrumented copy: {'ins': [(start, end, text)], 'inc': [(start, end)], 'rep': [(start, mid, end, n)]}
    in byte addresses (label values are address units: exact when the statement starts on a unit boundary)"""
    bpa = pr2["bpa"]
    sym = {n: a * bpa for (n, a, sc, ex) in pr2["syms_list"]}
    out = {"ins": [], "inc": [], "rep": []}
    ctr = [0]

    def walk(items):
        for it in items:
            k = it[0]
            if k == "ins":
                n = ctr[0]; ctr[0] += 1
                if "zs%d" % n in sym and "ze%d" % n in sym:
                    out["ins"].append((sym["zs%d" % n], sym["ze%d" % n], it[1]))
            elif k == "inc":
                n = ctr[0]; ctr[0] += 1
                walk(it[2])
                if "zib%d" % n in sym and "zie%d" % n in sym:
                    out["inc"].append((sym["zib%d" % n], sym["zie%d" % n]))
            elif k == "mac":
                walk(it[2])
            elif k == "rep":
                n = ctr[0]; ctr[0] += 1
                walk(it[2])
                if all(("z%s%d" % (t, n)) in sym for t in ("rb", "rm", "re")):
                    out["rep"].append((sym["zrb%d" % n], sym["zrm%d" % n], sym["zre%d" % n], it[1]))
    walk(prog["items"])
    return out


# ---------------------------------------------------------------- the oracle

def decode_hex(data):
    cells, meta = F.decode_ihex(data)
    img = {}
    for a, b in cells:
        img[a] = b
    return img


def mnemonic(text):
    return re.split(r"[\s.]", text.strip().lower())[0]


def judge(prog, lst_text, file_img, pr, ext=None, iso=None):
    """The property itself.  lst_text: the .lst (str); file_img: {addr: byte} decoded from the output file;
    pr: nvlib.parse_prog() of the in-process run of the same source (image, kinds, symbols, low/high);
    ext: extents() of the instrumented copy (root-cause classification only);
    iso: function(list of (addr, bytes)) -> list of text, the formatter run on isolated bytes (or None).
    -> (list of (class, detail), parsed listing).  A class names WHAT fails and, where the cause is one of the
    known structural ones, the cause:  include-code, unaligned-code, walk-mismatch:<mnemonic>, repeat-copy."""
    cpu = prog["cpu"]
    bpa, big = pr["bpa"], pr["end"] == "b"
    L = LP.parse(lst_text, cpu, bpa=bpa, big=big)
    fails = []
    for p in L["problems"]:
        fails.append(("format", p))
    image, kinds = pr["image"], pr["kinds"]
    ext = ext or {"ins": [], "inc": [], "rep": []}
    iscode = lambda a: kinds.get(a) in ("c", "n")
    # --- structural causes
    unaligned = sorted(a for a in image if iscode(a) and not iscode(a - 1) and a % bpa != 0)
    if bpa == 1 and cpu in ("msp430", "msp430x", "avr8"):
        unaligned = sorted(a for a in image if iscode(a) and not iscode(a - 1) and a % 2 != 0)
    inc_ranges = ext["inc"]
    gapflags = rep_gap_flags(prog["items"])
    rep_ranges = []                                               # the copies (+ what a walk may overrun)
    for i, (s_, m, e, n) in enumerate(ext["rep"]):
        rep_ranges.append((m, e + 8, "repeat-gap-copy" if i < len(gapflags) and gapflags[i] else "repeat-copy"))
    lines_sorted = sorted(L["lines"], key=lambda l: l["addr"])
    mismatch = []          # (start, end reached by the lines, mnemonic)
    for (s, e, text) in ext["ins"]:
        if any(a <= s < b for a, b in inc_ranges):
            continue
        if prog.get("shape") == "overwrite" or e < s:      # (e < s: the statement ends at 2^32, its end label is 0)
            continue
        inside = [l for l in lines_sorted if s <= l["addr"] < max(e, s + 1)]
        pos = s
        # leading pad / alignment gap: bytes in front of the first line that are not code
        while pos < e and not iscode(pos):
            pos += 1
        ok = True
        for l in inside:
            if l["addr"] != pos:
                ok = False
                break
            pos += len(l["bytes"])
        if pos != e:
            ok = False
        if not ok:
            reach = max([e] + [l["addr"] + len(l["bytes"]) for l in inside])
            mismatch.append((s, reach, mnemonic(text)))

    # the code run that ends at the last address of the 32-bit space: its statement's end address wraps to 0
    toprun = set()
    if iscode(0xffffffff):
        a = 0xffffffff
        while iscode(a):
            toprun.add(a)
            a -= 1

    def cause(a, code):
        if prog.get("shape") == "overwrite":
            return "overwrite"
        if a in toprun:
            return "top-of-memory"
        if not unaligned:
            for (s, r, m) in mismatch:
                if s <= a < r:
                    return "walk-mismatch:" + m
        if code and any(x <= a < y for x, y in inc_ranges):
            return "include-code"
        if unaligned and code:
            return "unaligned-code"
        for x, y, name in rep_ranges:
            if x <= a < y:
                return name
        return None

    def add(cls, a, detail, code=True):
        c = cause(a, code)
        fails.append(((c + "/" + cls) if c else cls, detail))

    # the output file carries the image
    for a, b in image.items():
        if file_img.get(a) != b:
            fails.append(("file-vs-image", "%x: file %s image %02x" % (a, file_img.get(a), b)))
            break
    # truthfulness
    shown = LP.shown_cells(L)
    count = {}
    for a, b, src in shown:
        count[a] = count.get(a, 0) + 1
        if a not in file_img:
            add("shown-not-in-output:" + src[0], a, "%x: %02x is shown but the output has no byte there" % (a, b), src[0] == "i")
        elif file_img[a] != b:
            add("untrue:" + src[0], a, "%x: listing %02x output %02x" % (a, b, file_img[a]), src[0] == "i")
    # dspic: the unprinted fourth byte of a program word must be 0
    for l in L["lines"]:
        for k, b in enumerate(l["bytes"]):
            if b is None:
                a = l["addr"] + k
                count[a] = count.get(a, 0) + 1
                if file_img.get(a, 0) != 0:
                    add("untrue:i", a, "%x: implied 00 output %02x" % (a, file_img[a]))
    # completeness, exactly once
    for a in sorted(image):
        c = count.get(a, 0)
        if c == 0:
            add("missing:" + ("code" if iscode(a) else "data"), a, "%x: %02x is in the output and nowhere in the listing" % (a, image[a]), iscode(a))
        elif c > 1:
            add("twice", a, "%x is shown %d times" % (a, c), True)
    # the dump shows exactly the data bytes
    for d in L["dump"]:
        for k, b in enumerate(d["cols"]):
            if b is not None and kinds.get(d["addr"] + k) != "d":
                add("dump-not-data", d["addr"] + k, "%x is in the data dump but is marked %s" % (d["addr"] + k, kinds.get(d["addr"] + k)), False)
    # instruction lines do not overlap
    for x, y in zip(lines_sorted, lines_sorted[1:]):
        if x["addr"] + len(x["bytes"]) > y["addr"]:
            add("overlap", y["addr"], "line at %x (%d bytes) runs into line at %x" % (x["addr"], len(x["bytes"]), y["addr"]))
    # a statement whose lines do not tile it, not explained by an unaligned start
    if not unaligned:
        for (s, r, m) in mismatch:
            fails.append(("walk-mismatch:" + m, "statement at %x: the listed lines do not tile its bytes (reach %x)" % (s, r)))
    # symbols and summary
    want = [(n, a, sc, ex) for (n, a, sc, ex) in pr["syms_list"]]
    if L["has_info"]:
        if L["symbols"] != want:
            fails.append(("symbols", "listing %r table %r" % (L["symbols"][:6], want[:6])))
        if L["total_symbols"] != len(want):
            fails.append(("symbol-count", "listing %r table %d" % (L["total_symbols"], len(want))))
        if image:
            lo, hi = min(image) // bpa, max(image) // bpa
            if (L["low"], L["high"]) != (lo, hi):
                fails.append(("low-high", "listing %r..%r image %x..%x" % (L["low"], L["high"], lo, hi)))
        if L["instructions"] != pr["ic"]:
            fails.append(("instruction-count", "listing %r assembler %d" % (L["instructions"], pr["ic"])))
    else:
        fails.append(("format", "no Program Info"))
    # each line is the disassembly of exactly the bytes it shows
    if iso is not None and L["lines"]:
        texts = iso([(l["addr"], [b or 0 for b in l["bytes"]]) for l in L["lines"]])
        for l, t in zip(L["lines"], texts):
            got = [x for x in t.split("\n") if x.strip()]
            have = [x for x in l["raw"] if x.strip()]
            if got != have:
                add("not-disasm-of-shown", l["addr"], "%x: listing %r, formatter on the shown bytes alone %r" % (l["addr"], have, got))
    return fails, L
