"""Parser of naken_asm listing files (.lst), written from the format a reader of the listing sees
(address column, hexadecimal byte/word columns, text), NOT shared with any code of /repo.

A listing consists of
  * the echoed source text, interleaved with one *block* per statement that emitted code: an empty line,
    instruction lines (and continuation lines carrying further words of the same instruction), an empty line;
  * `data sections:` followed by dump lines  `<unit address>:` + up to 16 columns ` hh` (or 3 blanks) + 2 blanks
    + the same bytes as text;
  * `Program Info:` with the symbol table (`LABEL ADDRESS SCOPE` header, one line per symbol,
    `-> Total symbols: n`) and the summary (`Instructions`, `Code Bytes`, `Data Bytes`, `Low Address`, `High Address`).

`parse(text, cpu)` returns a dict
  lines   : list of instruction records {addr (byte address), bytes (list of int, address order), raw (the text
            lines as printed, continuation lines included), lineno}
  dump    : list of {unit (header value), cols (16-list of int|None), text, addr (unit * bpa)}
  symbols : list of (name, value, scope, exported)   total_symbols : int
  low, high (address units as printed), instructions, code_bytes, data_bytes
  problems: list of strings (anything that does not parse as described above)

How the hexadecimal columns of an instruction line map to bytes is a property of the CPU's listing format
(`FORMATS`): which column is the address, its unit, how wide a word is and in which order its bytes lie in
memory.  For formats that print the value of `Memory::read16/read32` the order is the CPU's byte order.
"""
import re

# style:
#   bytes   : 2-digit byte columns, address order.  The columns end at the first double blank.  `lead` = width of the
#             byte field for the formats that print " hh" per byte into a fixed field: when the field is full only ONE
#             blank separates it from the text, so a byte column must start inside the field (a mnemonic such as `cc`
#             behind three bytes is text)
#   words   : fixed-width words; `order` = le | be | cpu ; `cont` = None | "addr" | "noaddr"
# div       : the printed address is byte address / div
# Every entry was written from the appearance of the listing (see notes/C18.md for the table).
def _b(**k):
    d = {"style": "bytes", "div": 1, "order": "le", "cont": None, "octal": False}
    d.update(k)
    return d


def _w(order, div=1, cont=None, **k):
    d = {"style": "words", "div": div, "order": order, "cont": cont, "octal": False}
    d.update(k)
    return d


FORMATS = {
    "1802": _b(lead=8), "4004": _b(), "6502": _b(), "65816": _b(), "65c02": _b(), "6800": _b(), "6809": _b(), "68hc08": _b(),
    "8008": _b(lead=9), "8041": _b(), "8048": _b(), "8051": _b(), "86000": _b(), "f8": _b(lead=8), "m8c": _b(), "stm8": _b(),
    "sweet16": _b(), "z80": _b(),
    "68000": _w("be", cont="noaddr"),
    "avr8": _w("le", div=2, cont="noaddr"),
    "cp1610": _w("cpu", div=2, cont="addr"),
    "lc3": _w("be", div=2),
    "msp430": _w("le", cont="addr"), "msp430x": _w("le", cont="addr"),
    "pdk13": _w("cpu", div=2), "pdk14": _w("cpu", div=2), "pdk15": _w("cpu", div=2), "pic14": _w("cpu", div=2),
    "pic18": _w("cpu", cont="noaddr"),
    "sh4": _w("cpu"), "thumb": _w("cpu", cont="noaddr"), "tms340": _w("cpu", cont="addr"),
    "unsp": _w("cpu", div=2, cont="noaddr"),
    "arm": _w("cpu"), "arm64": _w("cpu"), "cell": _w("cpu"), "mips": _w("cpu"), "pic32": _w("cpu"),
    "n64_rsp": _w("cpu"), "ps2_ee": _w("cpu"), "powerpc": _w("cpu"),
    "propeller": _w("cpu", div=4), "propeller2": _w("cpu", div=4),
    "riscv": _w("cpu"), "riscv64": _w("cpu"),
    "epiphany": _w("le"),
    "xtensa": _w("cpu"),
    "arc": _w("arc", cont="noaddr"),
    "dspic": _w("dspic", div=2, cont="addr"),
    "ps2_ee_vu0": _w("vu"), "ps2_ee_vu1": _w("vu"),
}

HEXTOK = re.compile(r"^(?:0x)?([0-9a-f]+)$")
ADDR = re.compile(r"^0x([0-9a-f]+):(.*)$")
CONT_NOADDR = re.compile(r"^ {2,}((?:0x)?[0-9a-f]{4,8})\s*$")


def word_bytes(digits, order, big):
    """bytes in address order of one printed word"""
    n = len(digits) // 2
    v = [int(digits[2 * i:2 * i + 2], 16) for i in range(n)]      # most significant first
    if order == "cpu":
        order = "be" if big else "le"
    if order == "be":
        return v
    if order == "le":
        return v[::-1]
    if order == "arc":
        # the value is (halfword at a) << 16 | (halfword at a + 2), each halfword in the CPU's order
        if n == 2:
            return v if big else v[::-1]
        hi, lo = v[0:2], v[2:4]
        return (hi if big else hi[::-1]) + (lo if big else lo[::-1])
    raise ValueError(order)


def parse_instr_line(line, fmt, big):
    """-> (byte address, [bytes]) or None"""
    m = ADDR.match(line)
    if not m:
        return None
    unit = int(m.group(1), 16)
    rest = m.group(2)
    addr = unit * fmt["div"]
    if fmt["style"] == "bytes":
        body = rest.lstrip(" ")
        skipped = len(rest) - len(body) - 1         # blanks that belong to the field
        out = []
        pos = 0
        while True:
            mm = re.match(r"([0-9a-f]{2})( |$)", body[pos:])
            if not mm:
                break
            if fmt.get("lead") and pos + skipped >= fmt["lead"]:
                break
            out.append(int(mm.group(1), 16))
            pos += mm.end()
            if body[pos:pos + 1] == " ":      # a second blank ends the byte columns
                break
        if not out:
            return None
        return addr, out
    toks = rest.split()
    if not toks:
        return None
    order = fmt["order"]
    if order == "vu":
        # upper word (at address + 4) is printed first, then the lower word (at address)
        if len(toks) < 2:
            return None
        up, lo = HEXTOK.match(toks[0]), HEXTOK.match(toks[1])
        if not up or not lo or len(up.group(1)) != 8 or len(lo.group(1)) != 8:
            return None
        return addr, word_bytes(lo.group(1), "cpu", big) + word_bytes(up.group(1), "cpu", big)
    mm = HEXTOK.match(toks[0])
    if not mm:
        return None
    digits = mm.group(1)
    if order == "dspic":
        # 24-bit program word in a 32-bit slot, printed as the value of the 32-bit little-endian word with at least six
        # digits: a fourth byte that is not printed is 0
        if len(digits) not in (6, 7, 8):
            return None
        return addr, word_bytes(digits.rjust(8, "0"), "le", big)
    if len(digits) not in (4, 6, 8):
        return None
    return addr, word_bytes(digits, order, big)


def parse_cont_line(line, fmt, big):
    """continuation line -> (address or None, [bytes]) or None"""
    if fmt["cont"] == "noaddr":
        m = CONT_NOADDR.match(line)
        if not m:
            return None
        digits = HEXTOK.match(m.group(1)).group(1)
        return None, word_bytes(digits, fmt["order"], big)
    if fmt["cont"] == "addr":
        m = ADDR.match(line)
        if not m:
            return None
        toks = m.group(2).split()
        if len(toks) != 1:
            return None
        mm = HEXTOK.match(toks[0])
        if not mm:
            return None
        digits = mm.group(1)
        if fmt["order"] == "dspic":
            # second word of a two-word instruction, printed with the same 0x%06x appearance
            if len(digits) != 6:
                return None
            return int(m.group(1), 16) * fmt["div"], word_bytes("00" + digits, "le", big)
        return int(m.group(1), 16) * fmt["div"], word_bytes(digits, fmt["order"], big)
    return None


def printable(cols):
    out = []
    for c in cols:
        if c is None:
            out.append(" ")
        elif 32 <= c < 127:
            out.append(chr(c))
        else:
            out.append(".")
    return "".join(out)


def parse_dump(body, bpa, problems):
    """body = text after 'data sections:' up to the blank line"""
    out = []
    for ln in body.split("\n"):
        if ln == "":
            continue
        m = re.match(r"^([0-9a-f]{4,}):(.*)$", ln)
        if not m:
            problems.append("dump: unparsable line %r" % ln[:80])
            continue
        unit = int(m.group(1), 16)
        rest = m.group(2)
        hexarea, text = rest[:48], rest[48:]
        cols = []
        ok = True
        for k in range(16):
            cell = hexarea[3 * k:3 * k + 3]
            if cell == "   " or cell == "":
                cols.append(None)
            elif re.match(r"^ [0-9a-f]{2}$", cell):
                cols.append(int(cell[1:], 16))
            else:
                ok = False
                cols.append(None)
        if not ok:
            problems.append("dump: bad column in %r" % ln[:80])
        # columns in use: up to the last non-blank
        used = max([k for k in range(16) if cols[k] is not None], default=-1) + 1
        if used == 0:
            problems.append("dump: line without bytes %r" % ln[:80])
        if not text.startswith("  "):
            problems.append("dump: text column misplaced in %r" % ln[:80])
        txt = text[2:]
        if txt != printable(cols[:used]):
            problems.append("dump: text column %r is not the text of the bytes %r" % (txt, printable(cols[:used])))
        # blanks are only allowed in front of the first byte
        first = min([k for k in range(16) if cols[k] is not None], default=0)
        if any(cols[k] is None for k in range(first, used)):
            problems.append("dump: blank column inside a line %r" % ln[:80])
        out.append({"unit": unit, "cols": cols, "used": used, "first": first, "text": txt, "addr": unit * bpa})
    return out


def parse(text, cpu, bpa=1, big=False):
    """text: the listing as str (latin-1)."""
    fmt = FORMATS.get(cpu)
    problems = []
    res = {"lines": [], "dump": [], "symbols": [], "problems": problems, "total_symbols": None, "low": None,
           "high": None, "instructions": None, "code_bytes": None, "data_bytes": None, "has_dump": False,
           "has_info": False}
    k = text.rfind("data sections:")
    if k < 0:
        problems.append("no 'data sections:'")
        echo, tail = text, ""
    else:
        echo, tail = text[:k], text[k + len("data sections:"):]
        res["has_dump"] = True
    # ---- instruction blocks
    if fmt is not None:
        cur = None
        for no, ln in enumerate(echo.split("\n")):
            if cur is not None and fmt["cont"]:
                c = parse_cont_line(ln, fmt, big)
                # a line that also parses as a full instruction line (address + word + text) is one
                if c is not None and not (fmt["cont"] == "addr" and len(ln.split()) > 2):
                    a, bs = c
                    if a is not None and a != cur["addr"] + len(cur["bytes"]):
                        problems.append("continuation line address %x does not follow %x+%d" % (a, cur["addr"], len(cur["bytes"])))
                    cur["bytes"] += bs
                    cur["raw"].append(ln)
                    continue
            p = parse_instr_line(ln, fmt, big) if ln.startswith("0x") else None
            if p is not None:
                cur = {"addr": p[0], "bytes": list(p[1]), "raw": [ln], "lineno": no}
                res["lines"].append(cur)
            else:
                if ln.startswith("0x") and ADDR.match(ln):
                    problems.append("instruction line not understood: %r" % ln[:100])
                cur = None
    # ---- data dump and info
    if k >= 0:
        j = tail.find("\n\n")
        body = tail if j < 0 else tail[:j]
        res["dump"] = parse_dump(body, bpa, problems)
        info = "" if j < 0 else tail[j:]
        if "Program Info:" in info:
            res["has_info"] = True
        insym = False
        for ln in info.split("\n"):
            if re.match(r"^ *LABEL ADDRESS  SCOPE$", ln):
                insym = True
                continue
            m = re.match(r"^ -> Total symbols: (\d+)$", ln)
            if m:
                res["total_symbols"] = int(m.group(1))
                insym = False
                continue
            if insym:
                m = re.match(r"^ *(\S+) ([0-9a-f]{8,}) (\d+)( EXPORTED)?$", ln)
                if m:
                    res["symbols"].append((m.group(1), int(m.group(2), 16), int(m.group(3)), bool(m.group(4))))
                elif ln.strip():
                    problems.append("symbol line not understood: %r" % ln[:100])
                continue
            for key, field in (("Instructions", "instructions"), ("Code Bytes", "code_bytes"), ("Data Bytes", "data_bytes")):
                m = re.match(r"^ *%s: (-?\d+)$" % key, ln)
                if m:
                    res[field] = int(m.group(1))
            for key, field in (("Low Address", "low"), ("High Address", "high")):
                m = re.match(r"^ *%s: 0x([0-9a-f]+) \((\d+)\)$" % key, ln)
                if m:
                    if int(m.group(1), 16) != int(m.group(2)):
                        problems.append("%s: hex and decimal differ" % key)
                    res[field] = int(m.group(2))
    return res


def shown_cells(res):
    """all (address, byte) pairs the listing shows: ('i', line index) / ('d', dump line index) provenance"""
    out = []
    for i, l in enumerate(res["lines"]):
        for k, b in enumerate(l["bytes"]):
            if b is not None:
                out.append((l["addr"] + k, b, ("i", i)))
    for i, d in enumerate(res["dump"]):
        for k, b in enumerate(d["cols"]):
            if b is not None:
                out.append((d["addr"] + k, b, ("d", i)))
    return out
